//go:build go1.21

package progs

import (
	"fmt"
	"strings"
)

// FamDataValue: struct and array value semantics and embedding.
//
// Value semantics matrix: for every aggregate type T of a small list (flat struct, nested struct,
// struct with string, array of ints, array of structs, struct with array, array of arrays) and
// every "copy path" (assignment, function argument, function result, element of array, field of
// struct, closure capture by value through a parameter, interface boxing, map value, slice
// element): copy x to y, mutate y's first and last leaf, observe x (unchanged), x == y before and
// after, and mutate through a pointer (which must alias).
type aggType struct {
	name  string
	decl  string
	typ   string
	lit   string   // a value
	lit2  string   // a different value
	leafs []string // leaf selectors: first .. last, int32-typed
	show  string   // expression over %s printing all leaves as one int64
}

func aggTypes() []aggType {
	return []aggType{
		{"flat struct", "type A@G@ struct{ x, y int32 }\n", "A@G@", "A@G@{1, 2}", "A@G@{1, 3}", []string{".x", ".y"}, "int64(%s.x)*100 + int64(%[1]s.y)"},
		{"nested struct", "type I@G@ struct{ p, q int32 }\ntype A@G@ struct {\n\ti I@G@\n\tn int32\n\tj I@G@\n}\n", "A@G@", "A@G@{I@G@{1, 2}, 3, I@G@{4, 5}}", "A@G@{I@G@{1, 2}, 3, I@G@{4, 6}}", []string{".i.p", ".j.q"}, "int64(%s.i.p)*10000 + int64(%[1]s.i.q)*1000 + int64(%[1]s.n)*100 + int64(%[1]s.j.p)*10 + int64(%[1]s.j.q)"},
		{"struct with string and bool", "type A@G@ struct {\n\ta int32\n\ts string\n\tb bool\n\tc int32\n}\n", "A@G@", "A@G@{1, \"s\", true, 2}", "A@G@{1, \"t\", true, 2}", []string{".a", ".c"}, "int64(%s.a)*100 + int64(%[1]s.c)*10 + int64(len(%[1]s.s))"},
		{"struct of mixed widths", "type A@G@ struct {\n\ta uint8\n\tb int64\n\tc uint16\n\td int32\n\te uint8\n}\n", "A@G@", "A@G@{1, 2, 3, 4, 5}", "A@G@{1, 2, 3, 4, 6}", []string{".d", ".d"}, "int64(%s.a)*10000 + %[1]s.b*1000 + int64(%[1]s.c)*100 + int64(%[1]s.d)*10 + int64(%[1]s.e)"},
		// array types are given a name: the WaGo parser takes `v [3]int32` in a parameter list or field
		// list for a generic instantiation (see value|declared with unnamed array or slice type), and
		// one front-end defect should not take down every class below
		{"array of int32", "type A@G@ [3]int32\n", "A@G@", "A@G@{1, 2, 3}", "A@G@{1, 2, 4}", []string{"[0]", "[2]"}, "int64(%s[0])*100 + int64(%[1]s[1])*10 + int64(%[1]s[2])"},
		{"array of structs", "type I@G@ struct{ p, q int32 }\ntype A@G@ [2]I@G@\n", "A@G@", "A@G@{{1, 2}, {3, 4}}", "A@G@{{1, 2}, {3, 5}}", []string{"[0].p", "[1].q"}, "int64(%s[0].p)*1000 + int64(%[1]s[0].q)*100 + int64(%[1]s[1].p)*10 + int64(%[1]s[1].q)"},
		{"struct with array", "type V@G@ [2]int32\ntype A@G@ struct {\n\tn int32\n\tv V@G@\n}\n", "A@G@", "A@G@{1, V@G@{2, 3}}", "A@G@{1, V@G@{2, 4}}", []string{".n", ".v[1]"}, "int64(%s.n)*100 + int64(%[1]s.v[0])*10 + int64(%[1]s.v[1])"},
		{"array of arrays", "type R@G@ [2]int32\ntype A@G@ [2]R@G@\n", "A@G@", "A@G@{{1, 2}, {3, 4}}", "A@G@{{1, 2}, {3, 5}}", []string{"[0][0]", "[1][1]"}, "int64(%s[0][0])*1000 + int64(%[1]s[0][1])*100 + int64(%[1]s[1][0])*10 + int64(%[1]s[1][1])"},
	}
}

func FamDataValue(thorough bool) Family {
	f := Family{Name: "data-value"}
	for _, t := range aggTypes() {
		T := t.typ
		sh := func(v string) string { return fmt.Sprintf(t.show, v) }
		first, last := t.leafs[0], t.leafs[1]
		decls := t.decl + fmt.Sprintf("func byval@G@(v %[1]s) int64 {\n\tv%[2]s = 77\n\treturn %[3]s\n}\nfunc ret@G@(v *%[1]s) %[1]s { return *v }\nfunc byptr@G@(v *%[1]s) { v%[4]s = 88 }\ntype H@G@ struct {\n\tpad int32\n\tv   %[1]s\n}\n", T, first, sh("v"), last)
		g := Group{Name: "value semantics of " + t.name, Decls: decls}
		addItem := func(path, stmts string) {
			g.Items = append(g.Items, Item{Key: "value|" + path + "|" + t.name, Desc: path + " of " + t.name, Stmts: stmts})
		}
		addItem("assign", fmt.Sprintf("\t\tx := %[1]s\n\t\ty := x\n\t\tprintln(x == y, x != y)\n\t\ty%[2]s = 50\n\t\tprintln(%[4]s, %[5]s, x == y)\n\t\ty = x\n\t\ty%[3]s = 60\n\t\tprintln(%[4]s, %[5]s, x == y, x != y)\n\t\tvar z %[6]s\n\t\tprintln(%[7]s, z == x)\n\t\tz = y\n\t\tprintln(z == y)", t.lit, first, last, sh("x"), sh("y"), T, sh("z")))
		addItem("compare", fmt.Sprintf("\t\tx, y, z := %[1]s, %[2]s, %[1]s\n\t\tprintln(x == y, x != y, x == z, x != z, x == %[1]s, y == %[2]s)", t.lit, t.lit2))
		addItem("function argument", fmt.Sprintf("\t\tx := %s\n\t\tprintln(byval@G@(x), %s)", t.lit, sh("x")))
		addItem("function result", fmt.Sprintf("\t\tx := %[1]s\n\t\ty := ret@G@(&x)\n\t\ty%[2]s = 50\n\t\tprintln(%[3]s, %[4]s)", t.lit, first, sh("x"), sh("y")))
		addItem("pointer aliasing", fmt.Sprintf("\t\tx := %[1]s\n\t\tp := &x\n\t\tq := p\n\t\tp%[2]s = 50\n\t\tq%[3]s = 60\n\t\tprintln(%[4]s, p == q, *p == x)\n\t\tbyptr@G@(&x)\n\t\tprintln(%[4]s)\n\t\ty := *p\n\t\ty%[2]s = 1\n\t\tprintln(%[4]s, %[5]s)\n\t\t*p = y\n\t\tprintln(%[4]s)", t.lit, first, last, sh("x"), sh("y")))
		addItem("pointer to leaf", fmt.Sprintf("\t\tx := %[1]s\n\t\tl := &x%[2]s\n\t\t*l = 41\n\t\ty := x\n\t\t*l = 42\n\t\tprintln(%[3]s, %[4]s)", t.lit, last, sh("x"), sh("y")))
		addItem("new", fmt.Sprintf("\t\tp := new(%[1]s)\n\t\tprintln(%[2]s)\n\t\t*p = %[3]s\n\t\tq := new(%[1]s)\n\t\t*q = *p\n\t\tq%[4]s = 9\n\t\tprintln(%[2]s, %[5]s, *p == *q, p == q)", T, sh("p"), t.lit, first, sh("q")))
		addItem("struct field", fmt.Sprintf("\t\th := H@G@{1, %[1]s}\n\t\tk := h\n\t\tk.v%[2]s = 50\n\t\tx := h.v\n\t\tx%[3]s = 60\n\t\tprintln(%[4]s, %[5]s, %[6]s, h == k, h.v == x)", t.lit, first, last, sh("h.v"), sh("k.v"), sh("x")))
		addItem("array element", fmt.Sprintf("\t\tvar arr [2]%[1]s\n\t\tarr[1] = %[2]s\n\t\tbrr := arr\n\t\tbrr[1]%[3]s = 50\n\t\tx := arr[1]\n\t\tx%[4]s = 60\n\t\tprintln(%[5]s, %[6]s, %[7]s, %[8]s, arr == brr)", T, t.lit, first, last, sh("arr[0]"), sh("arr[1]"), sh("brr[1]"), sh("x")))
		addItem("slice element", fmt.Sprintf("\t\ts := []%[1]s{%[2]s, %[3]s}\n\t\tx := s[0]\n\t\tx%[4]s = 50\n\t\ts[1]%[5]s = 60\n\t\tt := s\n\t\tt[0]%[5]s = 70\n\t\tprintln(%[6]s, %[7]s, %[8]s)\n\t\tfor _, v := range s {\n\t\t\tv%[4]s = 1\n\t\t}\n\t\tfor i := range s {\n\t\t\ts[i]%[4]s += 1\n\t\t}\n\t\tprintln(%[6]s, %[7]s)", T, t.lit, t.lit2, first, last, sh("s[0]"), sh("s[1]"), sh("x")))
		addItem("map value", fmt.Sprintf("\t\tm := map[int32]%[1]s{1: %[2]s}\n\t\tx := m[1]\n\t\tx%[3]s = 50\n\t\tprintln(%[4]s, %[5]s, %[6]s)\n\t\tm[2] = x\n\t\tx%[3]s = 51\n\t\tprintln(%[7]s, m[1] == m[2], m[3] == m[4])", T, t.lit, first, sh("m[1]"), sh("x"), sh("m[9]"), sh("m[2]")))
		addItem("map key", fmt.Sprintf("\t\tm := map[%[1]s]int32{}\n\t\tm[%[2]s] = 1\n\t\tm[%[3]s] = 2\n\t\tm[%[2]s] += 10\n\t\tx := %[2]s\n\t\tprintln(len(m), m[x], m[%[3]s])", T, t.lit, t.lit2))
		addItem("interface boxing", fmt.Sprintf("\t\tx := %[1]s\n\t\tvar e interface{} = x\n\t\tx%[2]s = 50\n\t\ty := e.(%[3]s)\n\t\ty%[4]s = 60\n\t\tz := e.(%[3]s)\n\t\tprintln(%[5]s, %[6]s, %[7]s, e == interface{}(z))", t.lit, first, T, last, sh("x"), sh("y"), sh("z")))
		addItem("closure capture", fmt.Sprintf("\t\tx := %[1]s\n\t\tget := func() %[2]s { return x }\n\t\tset := func(v %[2]s) { x = v }\n\t\ty := get()\n\t\ty%[3]s = 50\n\t\tprintln(%[4]s)\n\t\tset(y)\n\t\ty%[3]s = 51\n\t\tprintln(%[4]s, %[5]s)", t.lit, T, first, sh("x"), sh("y")))
		addItem("multiple assignment", fmt.Sprintf("\t\tx, y := %[1]s, %[2]s\n\t\tx, y = y, x\n\t\tprintln(%[3]s, %[4]s)\n\t\tx%[5]s, y%[5]s = y%[5]s, x%[5]s\n\t\tprintln(%[3]s, %[4]s)", t.lit, t.lit2, sh("x"), sh("y"), last))
		addItem("range value copy", fmt.Sprintf("\t\tarr := [2]%[1]s{%[2]s, %[3]s}\n\t\tfor i, v := range arr {\n\t\t\tarr[1]%[4]s = 90\n\t\t\tv%[5]s = 1\n\t\t\tprintln(i, %[6]s)\n\t\t}\n\t\tprintln(%[7]s, %[8]s)", T, t.lit, t.lit2, last, first, sh("v"), sh("arr[0]"), sh("arr[1]")))
		addItem("global variable", fmt.Sprintf("\t\tgv@G@ = %[1]s\n\t\ty := gv@G@\n\t\tgv@G@%[2]s = 50\n\t\tp := &gv@G@\n\t\tp%[3]s = 60\n\t\tprintln(%[4]s, %[5]s, gz@G@ == y)", t.lit, first, last, sh("gv@G@"), sh("y")))
		g.Decls += fmt.Sprintf("var gv@G@ %[1]s\nvar gz@G@ %[1]s\n", T)
		f.Groups = append(f.Groups, g)
	}

	add := func(key, decls, stmts string) {
		f.Groups = append(f.Groups, Group{Name: key, Decls: decls, Items: []Item{{Key: key, Desc: strings.SplitN(key, "|", 2)[1], Stmts: stmts}}})
	}
	// composite literal forms and zero values
	add("value|literal|field names, nesting, zero fields", "type L@G@ struct {\n\ta, b int32\n\ts    string\n\tin   struct{ u, v int32 }\n\tp    *L@G@\n}\n",
		"\t\tx := L@G@{b: 2, s: \"s\"}\n\t\tprintln(x.a, x.b, x.s, x.in.u, x.p == nil)\n\t\ty := L@G@{a: 1, p: &L@G@{a: 7}}\n\t\ty.in.v = 5\n\t\tprintln(y.a, y.p.a, y.in.v, y.p.p == nil)\n\t\tz := &L@G@{}\n\t\tz.p = z\n\t\tz.p.p.a = 3\n\t\tprintln(z.a)\n\t\tarr := [...]int32{5, 6, 7}\n\t\tidx := [4]int32{2: 9}\n\t\tprintln(len(arr), arr[2], idx[1], idx[2], len(idx))")
	add("value|zero values|all kinds", "type ZS@G@ []int32\ntype ZA@G@ [2]int32\ntype Z@G@ struct {\n\ti  int32\n\tu  uint64\n\tf  float64\n\tb  bool\n\ts  string\n\tp  *int32\n\tsl ZS@G@\n\tm  map[int32]int32\n\tfn func()\n\te  interface{}\n\ta  ZA@G@\n}\n",
		"\t\tvar z Z@G@\n\t\tprintln(z.i, z.u, z.f == 0, z.b, z.s == \"\", z.p == nil, z.sl == nil, z.m == nil, z.fn == nil, z.e == nil, z.a[1])\n\t\tvar arr [3]Z@G@\n\t\tprintln(arr[2].i, arr[2].s == \"\", len(arr[1].sl))\n\t\tp := new(Z@G@)\n\t\tprintln(p.u, p.e == nil)")
	add("value|anonymous struct|identical types assignable", "", "\t\ta := struct{ x, y int32 }{1, 2}\n\t\tvar b struct{ x, y int32 }\n\t\tb = a\n\t\tb.x = 5\n\t\tprintln(a.x, b.x, a == b)")
	add("value|array|len, index by variable, multi-dimensional", "", "\t\tvar g [3][4]int32\n\t\tfor i := 0; i < 3; i++ {\n\t\t\tfor j := 0; j < 4; j++ {\n\t\t\t\tg[i][j] = int32(i*10 + j)\n\t\t\t}\n\t\t}\n\t\trow := g[1]\n\t\trow[2] = 99\n\t\tprintln(len(g), len(g[0]), g[1][2], row[2], g[2][3])\n\t\tp := &g[2]\n\t\tp[0] = 55\n\t\tprintln(g[2][0], len(p))")
	add("value|pointer|to local escaping, pointer to pointer", "func esc@G@(v int32) *int32 {\n\tx := v * 2\n\treturn &x\n}\n", "\t\tp, q := esc@G@(1), esc@G@(2)\n\t\t*p += 10\n\t\tprintln(*p, *q, p == q)\n\t\tpp := &p\n\t\t*pp = q\n\t\t**pp = 7\n\t\tprintln(*p, *q, p == q)")
	add("value|struct containing slice and map shares them", "type SS@G@ []int32\ntype S@G@ struct {\n\ts SS@G@\n\tm map[int32]int32\n\tn int32\n}\n", "\t\tx := S@G@{[]int32{1, 2}, map[int32]int32{}, 3}\n\t\ty := x\n\t\ty.s[0] = 9\n\t\ty.m[1] = 1\n\t\ty.n = 4\n\t\ty.s = append(y.s, 5)\n\t\tprintln(x.s[0], len(x.s), len(x.m), x.n, len(y.s))")

	add("value|declared with unnamed array or slice type|struct field", "type FA@G@ struct {\n\tn int32\n\tv [2]int32\n\ts []int32\n}\n", "\t\tx := FA@G@{1, [2]int32{2, 3}, nil}\n\t\ty := x\n\t\ty.v[0] = 9\n\t\tprintln(x.v[0], y.v[0], len(x.s))")
	add("value|declared with unnamed array or slice type|parameter", "func fa@G@(v [2]int32) int32 {\n\tv[0] = 9\n\treturn v[0] + v[1]\n}\n", "\t\tx := [2]int32{1, 2}\n\t\tprintln(fa@G@(x), x[0])")
	add("value|declared with unnamed array or slice type|local, result, map, element", "func ra@G@() [2]int32 { return [2]int32{1, 2} }\n", "\t\tvar a [2]int32\n\t\tb := ra@G@()\n\t\ta = b\n\t\ta[0] = 5\n\t\tm := map[[2]int32][]int32{a: {1}}\n\t\tg := [][2]int32{a, b}\n\t\tprintln(a[0], b[0], len(m[a]), len(m[b]), g[1][1], a == b, a != b)")

	// embedding
	emb := `type B@G@ struct{ x, y int32 }

func (b *B@G@) Sum() int32   { return b.x + b.y }
func (b *B@G@) SetX(v int32) { b.x = v }

type E@G@ struct {
	B@G@
	z int32
}
type EP@G@ struct {
	*B@G@
	z int32
}
type Sh@G@ struct {
	B@G@
	x string
}
type D@G@ struct {
	E@G@
	w int32
}
type Su@G@ interface{ Sum() int32 }
`
	add("embed|promoted fields", emb, "\t\te := E@G@{B@G@{1, 2}, 3}\n\t\tprintln(e.x, e.B@G@.y, e.z)\n\t\te.x = 10\n\t\te.B@G@.y = 20\n\t\tprintln(e.B@G@.x, e.y)\n\t\tf := e\n\t\tf.x = 0\n\t\tprintln(e.x, f.x, e == f)")
	add("embed|promoted pointer-receiver methods", emb, "\t\te := E@G@{B@G@{1, 2}, 3}\n\t\tprintln(e.Sum())\n\t\te.SetX(8)\n\t\tprintln(e.x, e.Sum(), e.B@G@.Sum())\n\t\tp := &e\n\t\tp.SetX(9)\n\t\tprintln(p.Sum(), e.x)")
	add("embed|embedded pointer", emb, "\t\tb := &B@G@{1, 2}\n\t\te := EP@G@{b, 3}\n\t\tprintln(e.x, e.Sum())\n\t\te.SetX(4)\n\t\tprintln(b.x, e.B@G@ == b)\n\t\tf := e\n\t\tf.x = 0\n\t\tprintln(e.x, b.x)")
	add("embed|shadowing", emb, "\t\ts := Sh@G@{B@G@{1, 2}, \"outer\"}\n\t\tprintln(s.x, s.B@G@.x, s.y, s.Sum())\n\t\ts.SetX(5)\n\t\tprintln(s.x, s.B@G@.x)")
	add("embed|two levels", emb, "\t\td := D@G@{E@G@{B@G@{1, 2}, 3}, 4}\n\t\tprintln(d.x, d.z, d.w, d.Sum(), d.E@G@.B@G@.y)\n\t\td.SetX(7)\n\t\tprintln(d.E@G@.x, d.Sum())")
	add("embed|interface satisfied through promotion", emb, "\t\te := &E@G@{B@G@{1, 2}, 3}\n\t\tvar s Su@G@ = e\n\t\tprintln(s.Sum())\n\t\te.x = 10\n\t\tprintln(s.Sum())\n\t\tep := &EP@G@{&B@G@{5, 5}, 0}\n\t\ts = ep\n\t\tprintln(s.Sum())\n\t\t_, ok := s.(*E@G@)\n\t\tprintln(ok)")
	add("embed|method value of promoted method", emb, "\t\te := E@G@{B@G@{1, 2}, 3}\n\t\tf := e.Sum\n\t\tg := e.SetX\n\t\tg(10)\n\t\tprintln(f(), e.x)")
	add("embed|embedded interface in struct", emb+"type W@G@ struct {\n\tSu@G@\n\tn int32\n}\n", "\t\tw := W@G@{&B@G@{1, 2}, 5}\n\t\tprintln(w.Sum(), w.n)\n\t\tw.Su@G@ = &B@G@{3, 4}\n\t\tprintln(w.Sum())")
	add("embed|promoted value-receiver method", "type VB@G@ struct{ x, y int32 }\n\nfunc (b VB@G@) Sum() int32 { return b.x + b.y }\n\ntype VE@G@ struct {\n\tVB@G@\n\tz int32\n}\n", "\t\te := VE@G@{VB@G@{1, 2}, 3}\n\t\tprintln(e.Sum(), e.VB@G@.Sum())")
	return f
}
