//go:build verif

// Added to package lsp by the /verif overlay (never part of a normal build): read access to the
// server's private copy of an open document, for check C21.
package lsp

// VerifDocText returns the text the server currently stores for the document at path
// (fileMap[path]) and whether an entry exists.
func (p *LSPServer) VerifDocText(path string) (string, bool) {
	s, ok := p.fileMap[path]
	return s, ok
}
