//go:build verif

package dap

// VerifCtorTables exposes the default codec's constructor tables (request, response, event) to
// the /verif checks (C26). Read-only use.
func VerifCtorTables() (req, resp, ev map[string]func() Message) {
	conv := func(m map[string]messageCtor) map[string]func() Message {
		out := make(map[string]func() Message, len(m))
		for k, v := range m {
			out[k] = v
		}
		return out
	}
	return conv(defaultCodec.requestCtor), conv(defaultCodec.responseCtor), conv(defaultCodec.eventCtor)
}
