//go:build go1.21

package rcmon

import (
	"encoding/json"
	"fmt"
	"strconv"
	"time"

	"wa-lang.org/wa/api"
	"wa-lang.org/wa/internal/wat/watutil"
	"wa-lang.org/wa/internal/zzverif/mc"
	"wa-lang.org/wa/internal/zzverif/wrun"
)

// Mark kinds used by the own-family programs.
const (
	KindOp   = 1 // zzMark(k): operation / observation boundaries (sets Violation.Mark)
	KindIter = 2 // zzIter(k): end of loop iteration k -> census record
	KindRun  = 3 // zzRun(n): a run of n iterations starts -> census record (delimiter)
)

// OwnMarks are the mark functions of progs.OwnPrelude.
var OwnMarks = map[string]int{"__main__.zzMark": KindOp, "__main__.zzIter": KindIter, "__main__.zzRun": KindRun}

// Build = real front end + WAT backend (api.BuildFile), text instrumentation, real assembler.
func Build(filename, waSrc string, marks map[string]int) (wasm, fset, wat []byte, err error) {
	if pn := mc.Recover(func() {
		var w []byte
		_, w, fset, err = api.BuildFile(api.DefaultConfig(), filename, waSrc)
		if err != nil {
			err = fmt.Errorf("compile: %v", err)
			return
		}
		wat, err = Instrument(w, marks)
		if err != nil {
			return
		}
		wasm, err = watutil.Wat2Wasm(filename, wat)
		if err != nil {
			err = fmt.Errorf("wat2wasm of instrumented text: %v", err)
		}
	}); pn != "" {
		return nil, nil, nil, fmt.Errorf("compiler panic: %s", pn)
	}
	return
}

// Job: run cases Case0..Case{N-1} of a Go-syntax source on the instrumented program, once per
// entry of Poison.
type Job struct {
	Src    string
	N      int
	Poison []bool
	Record bool // keep census records (KindIter, KindRun)
	ClipOut int // > 0: keep only the last ClipOut bytes of each case's output
}

type ModeResult struct {
	Poison bool
	Cases  []CallResult
}

type JobResult struct {
	Err     string // the program as a whole failed (compile / instrument / assemble / engine)
	ErrKind string // "go2wa" "build" "engine"
	Modes   []ModeResult
	TimingMs map[string]int64 // where the worker spent its time (diagnostic)
	// totals over all modes: proof that the instrumentation saw traffic
	NMalloc, NFree, NRetain, NRelease int64
}

// HandleJob is the worker entry point.
func HandleJob(raw json.RawMessage) interface{} {
	var j Job
	if err := json.Unmarshal(raw, &j); err != nil {
		return JobResult{Err: err.Error(), ErrKind: "harness"}
	}
	t0 := time.Now()
	tm := map[string]int64{}
	lap := func(k string) { tm[k] += time.Since(t0).Milliseconds(); t0 = time.Now() }
	wa, err := wrun.Go2Wa(j.Src)
	if err != nil {
		return JobResult{Err: err.Error(), ErrKind: "go2wa"}
	}
	lap("go2wa")
	wasm, fset, _, err := Build("batch.wa", wa, OwnMarks)
	if err != nil {
		return JobResult{Err: err.Error(), ErrKind: "build"}
	}
	lap("build")
	out := JobResult{TimingMs: tm}
	p, err := NewProgram("batch.wa", wasm, fset, false)
	if err != nil {
		return JobResult{Err: err.Error(), ErrKind: "engine"}
	}
	defer p.Close()
	lap("engine")
	p.OpKind = KindOp
	if j.Record {
		p.RecordKinds = map[int]bool{KindIter: true, KindRun: true}
	}
	add := func() {
		if mo := p.Monitor(); mo != nil {
			out.NMalloc += mo.NMalloc
			out.NFree += mo.NFree
			out.NRetain += mo.NRetain
			out.NRelease += mo.NRelease
		}
	}
	for _, poison := range j.Poison {
		p.Reset(poison)
		mr := ModeResult{Poison: poison, Cases: make([]CallResult, j.N)}
		for i := 0; i < j.N; i++ {
			mr.Cases[i] = p.Call("case_" + strconv.Itoa(i))
			if o := mr.Cases[i].Out; j.ClipOut > 0 && len(o) > j.ClipOut {
				mr.Cases[i].Out = o[len(o)-j.ClipOut:]
			}
			if !p.Live() {
				add() // the instance is gone after a trap: count its events now
			}
		}
		if p.Live() {
			add()
		}
		lap("run")
		out.Modes = append(out.Modes, mr)
	}
	return out
}
