//go:build go1.21

package rcmon

import (
	"encoding/json"
	"fmt"
	"runtime"
	"runtime/debug"
	"strconv"
	"strings"
	"sync"
	"time"

	"wa-lang.org/wa/api"
	"wa-lang.org/wa/internal/wat/watutil"
	"wa-lang.org/wa/internal/zzverif/mc"
	"wa-lang.org/wa/internal/zzverif/wrun"
)

// Mark kinds used by the own-family programs.
const (
	KindOp   = 1 // zzMark(k): operation / observation boundaries (sets Violation.Mark)
	KindIter = 2 // zzIter(k): end of loop iteration k -> census record
	KindRun  = 3 // zzRun(n): a run of n iterations starts -> census record (delimiter)
)

// OwnMarks are the mark functions of progs.OwnPrelude.
var OwnMarks = map[string]int{"__main__.zzMark": KindOp, "__main__.zzIter": KindIter, "__main__.zzRun": KindRun}

// Build = real front end + WAT backend (api.BuildFile), text instrumentation, real assembler.
func Build(filename, waSrc string, marks map[string]int) (wasm, fset, wat []byte, err error) {
	if pn := mc.Recover(func() {
		var w []byte
		_, w, fset, err = api.BuildFile(api.DefaultConfig(), filename, waSrc)
		if err != nil {
			err = fmt.Errorf("compile: %v", err)
			return
		}
		wat, err = Instrument(w, marks)
		if err != nil {
			return
		}
		wasm, err = watutil.Wat2Wasm(filename, wat)
		if err != nil {
			err = fmt.Errorf("wat2wasm of instrumented text: %v", err)
		}
	}); pn != "" {
		return nil, nil, nil, fmt.Errorf("compiler panic: %s", pn)
	}
	return
}

// Job: run cases Case0..Case{N-1} of a Go-syntax source on the instrumented program. Every case
// is run once per entry of Poison, each mode on its own module instance (case i runs in all
// modes before case i+1 starts).
type Job struct {
	Src       string
	N         int
	Poison    []bool
	Record    bool // keep census records (KindIter, KindRun)
	ClipOut   int  // > 0: keep only the last ClipOut bytes of each case's output
	CaseCPUS  int  // watchdog per call: CPU-seconds of the worker process (default 20)
	MaxEvents int64
	Abort     bool // end a case at its first monitor violation
}

type JobResult struct {
	Err      string         // the program as a whole failed (compile / instrument / assemble / engine)
	ErrKind  string         // "go2wa" "build" "engine"
	Cases    [][]CallResult // [case][mode]
	Hung     bool           // a case hit the watchdog: later cases are "skipped", the worker must be retired
	Recycle  bool           // the worker served enough jobs: the pool replaces it (bounds its memory)
	TimingMs map[string]int64
	// totals over all instances: proof that the instrumentation saw traffic
	NMalloc, NFree, NRetain, NRelease int64
}

// Memory discipline of a worker: the Go heap is kept small during compilation (default GC percent),
// compiler garbage is collected before the module instances (64 MiB linear memory each) are
// made, everything is closed, collected and returned to the OS at the end of a job, and the
// worker asks to be replaced after recycleAfter jobs.
const recycleAfter = 6

var jobsServed int

// HandleJob is the worker entry point.
func HandleJob(raw json.RawMessage) interface{} {
	debug.SetGCPercent(100)
	res := handleJob(raw)
	runtime.GC()
	debug.FreeOSMemory()
	jobsServed++
	if jr, ok := res.(JobResult); ok && jobsServed >= recycleAfter {
		jr.Recycle = true
		return jr
	}
	return res
}

func handleJob(raw json.RawMessage) interface{} {
	var j Job
	if err := json.Unmarshal(raw, &j); err != nil {
		return JobResult{Err: err.Error(), ErrKind: "harness"}
	}
	t0 := time.Now()
	tm := map[string]int64{}
	lap := func(k string) { tm[k] += time.Since(t0).Milliseconds(); t0 = time.Now() }
	wa, err := wrun.Go2Wa(j.Src)
	if err != nil {
		return JobResult{Err: err.Error(), ErrKind: "go2wa"}
	}
	lap("go2wa")
	wasm, fset, _, err := Build("batch.wa", wa, OwnMarks)
	if err != nil {
		return JobResult{Err: err.Error(), ErrKind: "build"}
	}
	wa, j.Src = "", ""
	mem := func(k string) {
		var ms runtime.MemStats
		runtime.ReadMemStats(&ms)
		tm[k+"_heapinuse_MB"] = int64(ms.HeapInuse >> 20)
		tm[k+"_sys_MB"] = int64(ms.Sys >> 20)
	}
	mem("built")
	runtime.GC() // the compiler's garbage goes before the linear memories come
	lap("build")
	out := JobResult{TimingMs: tm}
	p, err := NewProgram("batch.wa", wasm, fset)
	if err != nil {
		return JobResult{Err: err.Error(), ErrKind: "engine"}
	}
	lap("engine")
	p.OpKind = KindOp
	p.MaxEvents = j.MaxEvents
	p.Abort = j.Abort
	if p.MaxEvents == 0 {
		p.MaxEvents = 20_000_000
	}
	if j.Record {
		p.RecordKinds = map[int]bool{KindIter: true, KindRun: true}
	}
	cpuBudget := float64(j.CaseCPUS)
	if cpuBudget == 0 {
		cpuBudget = 20
	}
	insts := make([]*Instance, len(j.Poison))
	for m, poison := range j.Poison {
		insts[m] = p.NewInstance(poison)
	}
	var lastMon = make([]*Monitor, len(insts))
	add := func(mo *Monitor) {
		if mo != nil {
			out.NMalloc += mo.NMalloc
			out.NFree += mo.NFree
			out.NRetain += mo.NRetain
			out.NRelease += mo.NRelease
		}
	}
	// The collector is off while a call is watched (see CallWatched) and the engine's host-call
	// glue allocates on every host call, so garbage only goes away if a collection is started
	// between cases: do so whenever the heap grew by more than gcStep since the last one.
	const gcStep = 32 << 20
	var ms runtime.MemStats
	runtime.ReadMemStats(&ms)
	heapAtGC := ms.HeapAlloc
	out.Cases = make([][]CallResult, j.N)
	for i := 0; i < j.N; i++ {
		if !out.Hung {
			runtime.ReadMemStats(&ms)
			if ms.HeapAlloc > heapAtGC+gcStep {
				runtime.GC()
				runtime.ReadMemStats(&ms)
				heapAtGC = ms.HeapAlloc
			}
		}
		out.Cases[i] = make([]CallResult, len(insts))
		for m, in := range insts {
			if out.Hung {
				out.Cases[i][m] = CallResult{Status: "skipped"}
				continue
			}
			cr := in.CallWatched("case_"+strconv.Itoa(i), cpuBudget, 15*time.Minute)
			if cr.Status != "hang" {
				if mo := in.Monitor(); mo != lastMon[m] { // a fresh module instance was made: count the old one
					add(lastMon[m])
					lastMon[m] = mo
				}
			}
			if j.ClipOut > 0 && len(cr.Out) > j.ClipOut {
				cr.Out = cr.Out[len(cr.Out)-j.ClipOut:]
			}
			out.Cases[i][m] = cr
			if cr.Status == "hang" {
				out.Hung = true
			}
		}
	}
	lap("run")
	if !out.Hung {
		mem("ran")
		for _, mo := range lastMon {
			add(mo)
		}
		p.Close()
	}
	return out
}

// ---------------------------------------------------------------------------------------------
// Parent side: scheduling cases over the worker pool

// Outcome of one logical case.
type Outcome struct {
	Modes   []CallResult // per poison mode; nil when the case could not be run
	Fail    string       // whole-pipeline failure for this case alone (compile error, worker crash)
	NotRun  bool         // the exploration was cut (deadline / hang budget)
	HangRep int          // number of times the hang reproduced alone (Status "hang" only)
}

// Runner packs logical cases into programs, runs them in pool workers, and isolates cases that
// make the whole program fail (bisection) or hang (the worker names the case; the hang is
// re-run alone 5 times).
type Runner struct {
	Pool       *mc.Pool
	Render     func(idx []int) string // the program whose Case<k> is logical case idx[k]
	Poison     []bool
	Record     bool
	ClipOut    int
	PerProgram int
	MaxHangs   int // confirmed hangs after which the remaining skipped cases are not re-run
	Expired    func() bool
	Abort      bool // end a case at its first monitor violation

	mu     sync.Mutex
	queue  [][]int
	active int
	cond   *sync.Cond
	out    []Outcome
	hangs  int

	Capped                            string // why the exploration was cut, "" if complete
	NMalloc, NFree, NRetain, NRelease int64
	Programs, UnreproducedHangs       int
	WorkerPeakMB                      map[string]int64 // max over jobs of the workers' Go heap figures
}

// InstallRetire makes the pool kill workers that reported a hang or ask to be recycled.
func InstallRetire(p *mc.Pool) {
	p.Retire = func(out json.RawMessage) bool {
		var h struct{ Hung, Recycle bool }
		return json.Unmarshal(out, &h) == nil && (h.Hung || h.Recycle)
	}
}

func (rn *Runner) job(idx []int) (jr JobResult, bad string, status string) {
	src := rn.Render(idx)
	var x mc.Result
	rn.Pool.Run(1, func(int) interface{} {
		return Job{Src: src, N: len(idx), Poison: rn.Poison, Record: rn.Record, ClipOut: rn.ClipOut, Abort: rn.Abort}
	}, 60*time.Minute, func(y mc.Result) { x = y })
	status = x.Status
	if x.Status != "ok" {
		return jr, "worker " + x.Status + ": " + tailStr(x.Stderr, 400), status
	}
	if err := json.Unmarshal(x.Out, &jr); err != nil {
		return jr, "bad worker output: " + err.Error(), status
	}
	if jr.Err != "" {
		return jr, jr.ErrKind + ": " + jr.Err, status
	}
	rn.mu.Lock()
	if rn.WorkerPeakMB == nil {
		rn.WorkerPeakMB = map[string]int64{}
	}
	for k, v := range jr.TimingMs {
		if strings.HasSuffix(k, "_MB") && v > rn.WorkerPeakMB[k] {
			rn.WorkerPeakMB[k] = v
		}
	}
	rn.Programs++
	rn.NMalloc += jr.NMalloc
	rn.NFree += jr.NFree
	rn.NRetain += jr.NRetain
	rn.NRelease += jr.NRelease
	rn.mu.Unlock()
	return jr, "", status
}

func tailStr(s string, n int) string {
	if len(s) > n {
		return s[len(s)-n:]
	}
	return s
}

func (rn *Runner) push(idx []int) {
	if len(idx) == 0 {
		return
	}
	rn.mu.Lock()
	rn.queue = append(rn.queue, idx)
	rn.mu.Unlock()
	rn.cond.Broadcast()
}

func (rn *Runner) process(idx []int, attempt int) {
	jr, bad, status := rn.job(idx)
	if bad != "" {
		if len(idx) > 1 {
			h := len(idx) / 2
			rn.push(idx[:h])
			rn.push(idx[h:])
			return
		}
		if status != "ok" && attempt < 5 { // crash/hang of the whole worker must reproduce alone
			rn.process(idx, attempt+1)
			return
		}
		rn.out[idx[0]] = Outcome{Fail: bad}
		return
	}
	for k, c := range idx {
		modes := jr.Cases[k]
		st := ""
		for _, m := range modes {
			if m.Status == "hang" || (m.Status == "skipped" && st == "") {
				st = m.Status
			}
		}
		switch st {
		case "":
			rn.out[c] = Outcome{Modes: modes}
		case "hang":
			rn.push(idx[k+1:]) // the cases after the culprit were skipped
			rn.confirmHang(c, modes)
			return
		case "skipped":
			rn.push(idx[k:]) // cannot happen before a hang; be safe
			return
		}
	}
}

// confirmHang re-runs a case that hung inside a packed program alone, 5 times.
func (rn *Runner) confirmHang(c int, first []CallResult) {
	rep := 0
	last := first
	for a := 0; a < 5; a++ {
		jr, bad, _ := rn.job([]int{c})
		if bad != "" {
			break
		}
		hung := false
		for _, m := range jr.Cases[0] {
			if m.Status == "hang" {
				hung = true
			}
		}
		if !hung {
			// not reproducible alone: the packed run's hang depended on state left by earlier
			// cases (they carry their own monitor verdicts); take the clean result
			rn.mu.Lock()
			rn.UnreproducedHangs++
			rn.mu.Unlock()
			rn.out[c] = Outcome{Modes: jr.Cases[0]}
			return
		}
		rep++
		last = jr.Cases[0]
	}
	rn.out[c] = Outcome{Modes: last, HangRep: rep}
	rn.mu.Lock()
	rn.hangs++
	rn.mu.Unlock()
}

// Run executes logical cases 0..n-1 and returns their outcomes.
func (rn *Runner) Run(n int) []Outcome {
	rn.cond = sync.NewCond(&rn.mu)
	rn.out = make([]Outcome, n)
	for i := range rn.out {
		rn.out[i].NotRun = true
	}
	if rn.MaxHangs == 0 {
		rn.MaxHangs = 6
	}
	for lo := 0; lo < n; lo += rn.PerProgram {
		hi := min(lo+rn.PerProgram, n)
		idx := make([]int, hi-lo)
		for k := range idx {
			idx[k] = lo + k
		}
		rn.queue = append(rn.queue, idx)
	}
	var wg sync.WaitGroup
	for w := 0; w < mc.NWorkers(); w++ {
		wg.Add(1)
		go func() {
			defer wg.Done()
			for {
				rn.mu.Lock()
				for len(rn.queue) == 0 && rn.active > 0 {
					rn.cond.Wait()
				}
				if len(rn.queue) == 0 {
					rn.mu.Unlock()
					rn.cond.Broadcast()
					return
				}
				idx := rn.queue[0]
				rn.queue = rn.queue[1:]
				cut := ""
				if rn.hangs >= rn.MaxHangs {
					cut = fmt.Sprintf("hang budget: %d hangs confirmed, remaining skipped cases not re-run", rn.hangs)
				} else if rn.Expired != nil && rn.Expired() {
					cut = "deadline"
				}
				if cut != "" {
					if rn.Capped == "" {
						rn.Capped = cut
					}
					rn.mu.Unlock()
					continue
				}
				rn.active++
				rn.mu.Unlock()
				rn.process(idx, 0)
				rn.mu.Lock()
				rn.active--
				rn.mu.Unlock()
				rn.cond.Broadcast()
			}
		}()
	}
	wg.Wait()
	return rn.out
}
