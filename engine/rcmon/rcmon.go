//go:build go1.21

// Package rcmon is the reference-count monitor shared by C11 and C12.
//
// No Go hook in /repo: the compiler's WAT OUTPUT is rewritten as text (Instrument). The runtime
// functions $runtime.malloc, $runtime.free, $runtime.HeapAlloc, $runtime.Block.Init,
// $runtime.Block.Retain and $runtime.Block.Release are renamed to $...__orig and wrappers with
// the original names (so every call site in the module reaches the wrapper) report each event to
// host functions of a "verif" module before/after delegating. The host side (Monitor) keeps the
// set of live blocks and a MIRRORED reference count per block and checks every event.
package rcmon

import (
	"bytes"
	"context"
	"fmt"
	"regexp"
	"runtime/debug"
	"sort"
	"strings"
	"sync"
	"syscall"
	"time"

	"wa-lang.org/wa/internal/3rdparty/wazero"
	"wa-lang.org/wa/internal/3rdparty/wazero/api"
	"wa-lang.org/wa/internal/3rdparty/wazero/sys"
	wawazero "wa-lang.org/wa/internal/wazero"
)

// PoisonByte overwrites the payload of a block immediately before the real free runs.
const PoisonByte = 0xA5

// ---------------------------------------------------------------------------------------------
// WAT rewriting

type wrapSpec struct {
	name   string // function name without '$'
	header *regexp.Regexp
	body   string // the wrapper, @ORIG@ = renamed original
}

func hdr(name, sig string) *regexp.Regexp {
	// matched against the definition LINE: "(func $name" [export clause] followed by the expected signature
	return regexp.MustCompile(`^[ \t]*\(func \$` + regexp.QuoteMeta(name) + `((?:[ \t]+\(export "[^"]*"\))?[ \t]+` + sig + `)`)
}

// findDef locates the single definition line of $name and checks its signature; it returns the
// offset right after the name (where "__orig" is inserted).
func findDef(src, name string, sig *regexp.Regexp) (int, error) {
	needle := "(func $" + name
	at, n := -1, 0
	for from := 0; ; {
		i := strings.Index(src[from:], needle)
		if i < 0 {
			break
		}
		i += from
		from = i + len(needle)
		if from < len(src) && (src[from] == ' ' || src[from] == '\t' || src[from] == '\n') {
			at = i
			n++
		}
	}
	if n != 1 {
		return 0, fmt.Errorf("instrument: expected exactly one definition of $%s, found %d", name, n)
	}
	ls := strings.LastIndexByte(src[:at], '\n') + 1
	le := strings.IndexByte(src[at:], '\n')
	if le < 0 {
		le = len(src) - at
	}
	line := strings.TrimRight(src[ls:at+le], "\r")
	if !sig.MatchString(line) {
		return 0, fmt.Errorf("instrument: $%s does not have the known signature: %q", name, line)
	}
	return at + len(needle), nil
}

const (
	p1   = `\(param \$\w+ i32\)`
	res1 = `\(result i32\)`
)

var wrapSpecs = []wrapSpec{
	{"runtime.malloc", hdr("runtime.malloc", p1+`[ \t]+`+res1), `
(func $runtime.malloc (param $size i32) (result i32)
  (local $p i32)
  local.get $size
  call $@ORIG@
  local.tee $p
  local.get $size
  call $verif.on_malloc
  local.get $p
)`},
	{"runtime.free", hdr("runtime.free", p1+`[ \t]*(;;.*)?$`), `
(func $runtime.free (param $ptr i32)
  local.get $ptr
  call $verif.on_free
  local.get $ptr
  call $@ORIG@
)`},
	{"runtime.HeapAlloc", hdr("runtime.HeapAlloc", p1+`[ \t]+`+res1), `
(func $runtime.HeapAlloc (param $nbytes i32) (result i32)
  (local $p i32)
  local.get $nbytes
  call $@ORIG@
  local.tee $p
  local.get $nbytes
  call $verif.on_heapalloc
  local.get $p
)`},
	{"runtime.Block.Init", hdr("runtime.Block.Init", p1+`[ \t]+`+p1+`[ \t]+`+p1+`[ \t]+`+p1+`[ \t]+`+res1), `
(func $runtime.Block.Init (param $ptr i32) (param $item_count i32) (param $release_func i32) (param $item_size i32) (result i32)
  local.get $ptr
  local.get $item_count
  local.get $release_func
  local.get $item_size
  call $@ORIG@
  local.get $ptr
  local.get $item_count
  local.get $release_func
  local.get $item_size
  call $verif.on_init
)`},
	{"runtime.Block.Retain", hdr("runtime.Block.Retain", p1+`[ \t]+`+res1), `
(func $runtime.Block.Retain (param $ptr i32) (result i32)
  local.get $ptr
  call $verif.on_retain
  local.get $ptr
  call $@ORIG@
)`},
	{"runtime.Block.Release", hdr("runtime.Block.Release", p1+`[ \t]*(;;.*)?$`), `
(func $runtime.Block.Release (param $ptr i32)
  local.get $ptr
  call $verif.on_release
  local.get $ptr
  call $@ORIG@
  local.get $ptr
  call $verif.on_release_done
)`},
}

const verifImports = `
  (import "verif" "on_malloc" (func $verif.on_malloc (param i32) (param i32)))
  (import "verif" "on_free" (func $verif.on_free (param i32)))
  (import "verif" "on_heapalloc" (func $verif.on_heapalloc (param i32) (param i32)))
  (import "verif" "on_init" (func $verif.on_init (param i32) (param i32) (param i32) (param i32)))
  (import "verif" "on_retain" (func $verif.on_retain (param i32)))
  (import "verif" "on_release" (func $verif.on_release (param i32)))
  (import "verif" "on_release_done" (func $verif.on_release_done (param i32)))
  (import "verif" "on_mark" (func $verif.on_mark (param i32) (param i32) (param i32)))
`

var moduleHead = regexp.MustCompile(`(?m)^\(module[^\n]*\n`)

// Instrument rewrites the WAT text. marks maps a function name of the program (without '$',
// e.g. "__main__.zzMark"; it must have the signature (param i32)) to a mark kind: the wrapper
// reports (kind, argument, $__heap_ptr) to the host before running the original.
// Every renamed function must be found exactly once with the expected signature, otherwise the
// instrumentation is not trustworthy and an error (a harness error, never a violation) results.
func Instrument(wat []byte, marks map[string]int) ([]byte, error) {
	src := string(wat)
	var tail strings.Builder
	var cuts []int // offsets where "__orig" is inserted
	for _, sp := range wrapSpecs {
		at, err := findDef(src, sp.name, sp.header)
		if err != nil {
			return nil, err
		}
		cuts = append(cuts, at)
		tail.WriteString(strings.ReplaceAll(sp.body, "@ORIG@", sp.name+"__orig"))
		tail.WriteString("\n")
	}
	var names []string
	for name := range marks {
		names = append(names, name)
	}
	sort.Strings(names)
	for _, name := range names {
		at, err := findDef(src, name, hdr(name, p1+`[ \t]*(;;.*)?$`))
		if err != nil {
			return nil, err
		}
		cuts = append(cuts, at)
		fmt.Fprintf(&tail, "\n(func $%s (param $k i32)\n  i32.const %d\n  local.get $k\n  global.get $__heap_ptr\n  call $verif.on_mark\n  local.get $k\n  call $%s__orig\n)\n", name, marks[name], name)
	}
	if !strings.Contains(src, "(global $__heap_ptr") || !strings.Contains(src, "(global $__heap_base") {
		return nil, fmt.Errorf("instrument: global $__heap_ptr / $__heap_base not found")
	}
	tail.WriteString("\n(func $verif.heap_base (export \"verif_heap_base\") (result i32)\n  global.get $__heap_base\n)\n")
	h := moduleHead.FindStringIndex(src[:min(len(src), 4096)])
	if h == nil {
		return nil, fmt.Errorf("instrument: module header not found")
	}
	t := strings.LastIndex(src, "\n)")
	if t < 0 || strings.Contains(src[t+2:], "(") {
		return nil, fmt.Errorf("instrument: module end not found")
	}
	sort.Ints(cuts)
	var out strings.Builder
	out.Grow(len(src) + tail.Len() + len(verifImports) + 256)
	out.WriteString(src[:h[1]])
	out.WriteString(verifImports)
	pos := h[1]
	for _, c := range cuts {
		if c < pos || c > t {
			return nil, fmt.Errorf("instrument: definition outside the module body")
		}
		out.WriteString(src[pos:c])
		out.WriteString("__orig")
		pos = c
	}
	out.WriteString(src[pos : t+1])
	out.WriteString(tail.String())
	out.WriteString(src[t+1:])
	return []byte(out.String()), nil
}

// ---------------------------------------------------------------------------------------------
// Monitor

// Event is one observed runtime event (for traces).
type Event struct {
	K string `json:"k"`           // malloc free heapalloc init retain release mark
	P uint32 `json:"p"`           // block address (mark: id)
	A int64  `json:"a,omitempty"` // malloc: size; init/retain/release: mirrored count AFTER the event; mark: kind
}

func (e Event) String() string {
	switch e.K {
	case "malloc":
		return fmt.Sprintf("malloc(%d)=%#x", e.A, e.P)
	case "mark":
		return fmt.Sprintf("mark[%d]:%d", e.A, e.P)
	case "free", "heapalloc":
		return fmt.Sprintf("%s(%#x)", e.K, e.P)
	}
	return fmt.Sprintf("%s(%#x)->%d", e.K, e.P, e.A)
}

// AbortMsg prefixes the trap message of a call ended by AbortOnViolation.
const AbortMsg = "rcmon: call ended at the first monitor violation: "

// Violation is one failed check.
type Violation struct {
	Class  string   `json:"class"`
	Ptr    uint32   `json:"ptr"`
	Mark   int      `json:"mark"` // last mark id seen (kind MarkOp) when it happened, -1 = none yet
	Detail string   `json:"detail"`
	Trace  []string `json:"trace"` // the events leading to it (oldest first)
}

// Record is the heap census taken at a mark.
type Record struct {
	Kind    int    `json:"kind"`
	K       int    `json:"k"`
	Live    int    `json:"live"`
	Bytes   int64  `json:"bytes"`
	HeapPtr uint32 `json:"heap_ptr"`
}

type block struct {
	size   uint32
	count  int32
	inited bool
}

// Monitor is the host-side state for ONE module instance.
type Monitor struct {
	mu     sync.Mutex // host callbacks vs. the watchdog's snapshot of a hung case
	Poison bool
	// MaxEvents: event budget per case (0 = none); exceeding it makes the host callback panic,
	// which ends the call with a trap instead of an endless release loop.
	MaxEvents  int64
	caseEvents int64
	inCase     bool // false while the start function runs (instantiation)
	// AbortOnViolation: the first violation of a case ends the call (the host callback panics):
	// everything after it would run on a heap that is known to be wrong (and may never return).
	AbortOnViolation bool
	// RecordKinds: mark kinds for which a census Record is stored.
	RecordKinds map[int]bool
	// OpKind: the mark kind that sets Violation.Mark.
	OpKind int

	// HeapBase: addresses below it are static data (never allocated, never freed); retain and
	// release of a counted static block are not heap events.
	HeapBase uint32
	NStatic  int64

	live      map[uint32]*block
	addrs     []uint32 // addresses of the live blocks, sorted
	freed     map[uint32]bool
	liveBytes int64
	curMark   int
	ring      []Event
	ringPos   int
	ringFull  bool

	Violations []Violation
	Records    []Record
	NEvents    int64
	NMalloc    int64
	NFree      int64
	NRetain    int64
	NRelease   int64
	seenClass  map[string]bool
}

const ringSize = 40
const maxViolationsPerCase = 12

func NewMonitor(poison bool) *Monitor {
	return &Monitor{Poison: poison, live: map[uint32]*block{}, freed: map[uint32]bool{}, curMark: -1,
		ring: make([]Event, ringSize), seenClass: map[string]bool{}, RecordKinds: map[int]bool{}}
}

// BeginCase clears the per-case results; the heap state (live set, counts) carries over.
func (mo *Monitor) BeginCase() {
	mo.mu.Lock()
	defer mo.mu.Unlock()
	mo.Violations = nil
	mo.Records = nil
	mo.caseEvents = 0
	mo.inCase = true
	mo.curMark = -1
	mo.seenClass = map[string]bool{}
	mo.ringPos, mo.ringFull = 0, false
}

func (mo *Monitor) ev(k string, p uint32, a int64) {
	mo.NEvents++
	mo.caseEvents++
	if mo.MaxEvents > 0 && mo.caseEvents > mo.MaxEvents {
		mo.caseEvents = 0
		panic(fmt.Sprintf("rcmon: more than %d heap events in one case (endless loop?)", mo.MaxEvents))
	}
	mo.ring[mo.ringPos] = Event{k, p, a}
	mo.ringPos++
	if mo.ringPos == ringSize {
		mo.ringPos, mo.ringFull = 0, true
	}
}

func (mo *Monitor) trace() []string {
	var out []string
	if mo.ringFull {
		for _, e := range mo.ring[mo.ringPos:] {
			out = append(out, e.String())
		}
	}
	for _, e := range mo.ring[:mo.ringPos] {
		out = append(out, e.String())
	}
	return out
}

func (mo *Monitor) violate(class string, ptr uint32, format string, a ...interface{}) {
	// one violation per (class, mark) and case keeps the result small; the first is the cause
	k := fmt.Sprintf("%s@%d", class, mo.curMark)
	if mo.seenClass[k] || len(mo.Violations) >= maxViolationsPerCase {
		return
	}
	mo.seenClass[k] = true
	mo.Violations = append(mo.Violations, Violation{Class: class, Ptr: ptr, Mark: mo.curMark, Detail: fmt.Sprintf(format, a...), Trace: mo.trace()})
	if mo.AbortOnViolation && mo.inCase {
		panic(AbortMsg + class)
	}
}

// Census returns (live blocks, live bytes).
func (mo *Monitor) Census() (int, int64) { return len(mo.live), mo.liveBytes }

func (mo *Monitor) onMalloc(mem api.Memory, ctx context.Context, ptr, size uint32) {
	mo.NMalloc++
	mo.ev("malloc", ptr, int64(size))
	if ptr == 0 {
		return // out of memory is not this property's business
	}
	// overlap check against the address-ordered neighbours (mo.addrs is sorted)
	i := sort.Search(len(mo.addrs), func(k int) bool { return mo.addrs[k] >= ptr })
	for _, k := range []int{i - 1, i} {
		if k < 0 || k >= len(mo.addrs) {
			continue
		}
		a := mo.addrs[k]
		b := mo.live[a]
		if ptr < a+b.size && a < ptr+size {
			mo.violate("malloc-overlaps-live-block", ptr, "malloc(%d) returned %#x which overlaps live block %#x (+%d, mirrored count %d)", size, ptr, a, b.size, b.count)
			if a == ptr {
				mo.liveBytes -= int64(b.size)
			}
			break
		}
	}
	if i >= len(mo.addrs) || mo.addrs[i] != ptr {
		mo.addrs = append(mo.addrs, 0)
		copy(mo.addrs[i+1:], mo.addrs[i:])
		mo.addrs[i] = ptr
	}
	delete(mo.freed, ptr)
	mo.live[ptr] = &block{size: size}
	mo.liveBytes += int64(size)
}

func (mo *Monitor) onHeapAlloc(mem api.Memory, ctx context.Context, ptr, nbytes uint32) {
	mo.ev("heapalloc", ptr, int64(nbytes))
	if ptr == 0 || nbytes == 0 {
		return
	}
	n := (nbytes + 7) / 8 * 8
	data, ok := mem.Read(ctx, ptr, n)
	if !ok {
		mo.violate("alloc-outside-memory", ptr, "HeapAlloc(%d) returned %#x: outside memory", nbytes, ptr)
		return
	}
	for i, c := range data {
		if c != 0 {
			mo.violate("alloc-not-zero", ptr, "HeapAlloc(%d) returned %#x whose byte +%d reads %#x, not 0", nbytes, ptr, i, c)
			return
		}
	}
}

func (mo *Monitor) onInit(ptr uint32) {
	if ptr == 0 {
		return
	}
	b := mo.live[ptr]
	if b == nil {
		mo.ev("init", ptr, 1)
		mo.violate("init-of-non-live-block", ptr, "Block.Init(%#x): not a live allocation", ptr)
		return
	}
	b.count, b.inited = 1, true
	mo.ev("init", ptr, 1)
}

func (mo *Monitor) memCount(mem api.Memory, ctx context.Context, ptr uint32) (int32, bool) {
	v, ok := mem.ReadUint32Le(ctx, ptr)
	return int32(v), ok
}

func (mo *Monitor) onRetain(mem api.Memory, ctx context.Context, ptr uint32) {
	if ptr == 0 {
		return
	}
	if ptr < mo.HeapBase {
		mo.NStatic++
		return
	}
	mo.NRetain++
	b := mo.live[ptr]
	if b == nil {
		mo.ev("retain", ptr, -1)
		if mo.freed[ptr] {
			mo.violate("retain-after-free", ptr, "Block.Retain(%#x): the block was freed (use after free)", ptr)
		} else {
			mo.violate("retain-of-unknown-block", ptr, "Block.Retain(%#x): never allocated", ptr)
		}
		return
	}
	if b.inited {
		if c, ok := mo.memCount(mem, ctx, ptr); ok && c != b.count && b.count > 0 {
			mo.violate("count-corrupted", ptr, "Block.Retain(%#x): count in memory %d, mirrored count %d", ptr, c, b.count)
		}
		if b.count == 0 {
			mo.violate("retain-while-count=0", ptr, "Block.Retain(%#x): the count already dropped to 0 (block is being destroyed)", ptr)
		}
	}
	b.count++
	mo.ev("retain", ptr, int64(b.count))
}

func (mo *Monitor) onRelease(mem api.Memory, ctx context.Context, ptr uint32) {
	if ptr == 0 {
		return
	}
	if ptr < mo.HeapBase {
		mo.NStatic++
		return
	}
	mo.NRelease++
	b := mo.live[ptr]
	if b == nil {
		mo.ev("release", ptr, -1)
		if mo.freed[ptr] {
			mo.violate("release-after-free", ptr, "Block.Release(%#x): the block was freed (use after free / double release)", ptr)
		} else {
			mo.violate("release-of-unknown-block", ptr, "Block.Release(%#x): never allocated", ptr)
		}
		return
	}
	if b.inited {
		if c, ok := mo.memCount(mem, ctx, ptr); ok && c != b.count && b.count > 0 {
			mo.violate("count-corrupted", ptr, "Block.Release(%#x): count in memory %d, mirrored count %d", ptr, c, b.count)
		}
		if b.count <= 0 {
			mo.violate("release-while-count=0", ptr, "Block.Release(%#x): the count already dropped to 0", ptr)
		}
	}
	b.count--
	mo.ev("release", ptr, int64(b.count))
}

func (mo *Monitor) onFree(mem api.Memory, ctx context.Context, ptr uint32) {
	mo.NFree++
	mo.ev("free", ptr, 0)
	b := mo.live[ptr]
	if b == nil {
		if mo.freed[ptr] {
			mo.violate("double-free", ptr, "free(%#x): already freed", ptr)
		} else {
			mo.violate("free-of-unknown-block", ptr, "free(%#x): never allocated", ptr)
		}
		return
	}
	if b.inited && b.count != 0 {
		mo.violate("free-while-count>0", ptr, "free(%#x): mirrored reference count is %d", ptr, b.count)
	}
	if mo.Poison {
		buf := bytes.Repeat([]byte{PoisonByte}, int(b.size))
		mem.Write(ctx, ptr, buf)
	}
	delete(mo.live, ptr)
	if i := sort.Search(len(mo.addrs), func(k int) bool { return mo.addrs[k] >= ptr }); i < len(mo.addrs) && mo.addrs[i] == ptr {
		mo.addrs = append(mo.addrs[:i], mo.addrs[i+1:]...)
	}
	mo.freed[ptr] = true
	mo.liveBytes -= int64(b.size)
}

func (mo *Monitor) onMark(kind, k int, heapPtr uint32) {
	mo.ev("mark", uint32(k), int64(kind))
	if kind == mo.OpKind {
		mo.curMark = k
	}
	if mo.RecordKinds[kind] {
		mo.Records = append(mo.Records, Record{Kind: kind, K: k, Live: len(mo.live), Bytes: mo.liveBytes, HeapPtr: heapPtr})
	}
}

// ---------------------------------------------------------------------------------------------
// Running

// Program is an instrumented, assembled program bound to one wazero runtime: compiled by the
// engine once, instantiated as often as needed (several instances may be alive; calls are
// sequential).
type Program struct {
	Name string
	ctx  context.Context
	rt   wazero.Runtime
	cm   wazero.CompiledModule
	conf wazero.ModuleConfig
	cur  *Instance // the instance whose call is in progress; host functions dispatch to it
	seq  int

	RecordKinds map[int]bool
	OpKind      int
	MaxEvents   int64
	Abort       bool
}

// Instance is one module instance with its own monitor and output buffer.
type Instance struct {
	p      *Program
	Poison bool
	mon    *Monitor
	mod    api.Module
	omu    sync.Mutex
	out    bytes.Buffer
}

type progWriter struct{ p *Program }

func (w progWriter) Write(b []byte) (int, error) {
	if in := w.p.cur; in != nil {
		in.omu.Lock()
		in.out.Write(b)
		in.omu.Unlock()
	}
	return len(b), nil
}

// a minimal valid module: lets us obtain a *wawazero.Module (whose JsInstantiate method defines
// the real "syscall_js" host functions) carrying the program's file set for print_position.
var emptyWasm = []byte{0x00, 0x61, 0x73, 0x6d, 0x01, 0x00, 0x00, 0x00}

// NewProgram compiles wasm on a fresh runtime that has the repository's own syscall_js host
// module (the imports every compiled Wa program has under the default js target) plus the verif
// module.
func NewProgram(name string, wasm, fset []byte) (*Program, error) {
	p := &Program{Name: name, ctx: context.Background(), RecordKinds: map[int]bool{}}
	shell, err := wawazero.BuildModule(name, emptyWasm, fset)
	if err != nil {
		return nil, fmt.Errorf("rcmon: host shell: %v", err)
	}
	p.rt = wazero.NewRuntime(p.ctx)
	cm, err := p.rt.CompileModule(p.ctx, wasm)
	if err != nil {
		p.rt.Close(p.ctx)
		return nil, fmt.Errorf("rcmon: engine compile: %v", err)
	}
	p.cm = cm
	for _, f := range cm.ImportedFunctions() {
		mod, fn, isImp := f.Import()
		if isImp && mod != "syscall_js" && mod != "verif" {
			p.rt.Close(p.ctx)
			return nil, fmt.Errorf("rcmon: unexpected import %s.%s", mod, fn)
		}
	}
	if _, err := shell.JsInstantiate(p.ctx, p.rt); err != nil {
		p.rt.Close(p.ctx)
		return nil, fmt.Errorf("rcmon: syscall_js: %v", err)
	}
	shell.Close()
	mon := func() *Monitor { return p.cur.mon }
	_, err = p.rt.NewHostModuleBuilder("verif").
		NewFunctionBuilder().WithFunc(func(ctx context.Context, m api.Module, ptr, size uint32) {
		mo := mon()
		mo.mu.Lock()
		defer mo.mu.Unlock()
		mo.onMalloc(m.Memory(), ctx, ptr, size)
	}).Export("on_malloc").
		NewFunctionBuilder().WithFunc(func(ctx context.Context, m api.Module, ptr uint32) {
		mo := mon()
		mo.mu.Lock()
		defer mo.mu.Unlock()
		mo.onFree(m.Memory(), ctx, ptr)
	}).Export("on_free").
		NewFunctionBuilder().WithFunc(func(ctx context.Context, m api.Module, ptr, n uint32) {
		mo := mon()
		mo.mu.Lock()
		defer mo.mu.Unlock()
		mo.onHeapAlloc(m.Memory(), ctx, ptr, n)
	}).Export("on_heapalloc").
		NewFunctionBuilder().WithFunc(func(ctx context.Context, m api.Module, ptr, ic, rf, is uint32) {
		mo := mon()
		mo.mu.Lock()
		defer mo.mu.Unlock()
		mo.onInit(ptr)
	}).Export("on_init").
		NewFunctionBuilder().WithFunc(func(ctx context.Context, m api.Module, ptr uint32) {
		mo := mon()
		mo.mu.Lock()
		defer mo.mu.Unlock()
		mo.onRetain(m.Memory(), ctx, ptr)
	}).Export("on_retain").
		NewFunctionBuilder().WithFunc(func(ctx context.Context, m api.Module, ptr uint32) {
		mo := mon()
		mo.mu.Lock()
		defer mo.mu.Unlock()
		mo.onRelease(m.Memory(), ctx, ptr)
	}).Export("on_release").
		NewFunctionBuilder().WithFunc(func(ctx context.Context, m api.Module, ptr uint32) {
	}).Export("on_release_done").
		NewFunctionBuilder().WithFunc(func(ctx context.Context, m api.Module, kind, k, hp uint32) {
		mo := mon()
		mo.mu.Lock()
		defer mo.mu.Unlock()
		mo.onMark(int(int32(kind)), int(int32(k)), hp)
	}).Export("on_mark").
		Instantiate(p.ctx, p.rt)
	if err != nil {
		p.rt.Close(p.ctx)
		return nil, fmt.Errorf("rcmon: verif module: %v", err)
	}
	w := progWriter{p}
	p.conf = wazero.NewModuleConfig().WithStdout(w).WithStderr(w)
	return p, nil
}

func (p *Program) Close() {
	if p.rt != nil {
		p.rt.Close(p.ctx)
		p.rt = nil
	}
}

// NewInstance declares an instance; the module is instantiated lazily by the first Call and
// again after every trap.
func (p *Program) NewInstance(poison bool) *Instance { return &Instance{p: p, Poison: poison} }

// Live reports whether a module instance is currently alive (no trap since it was made).
func (in *Instance) Live() bool { return in.mod != nil }

// Monitor of the current module instance (nil before the first call).
func (in *Instance) Monitor() *Monitor { return in.mon }

// CallResult is the outcome of one exported function call.
type CallResult struct {
	Out        string
	Status     string // "ok" / "trap" / "hang" (watchdog) / "skipped" (not run because an earlier case hung)
	Err        string
	Mark       int // last operation mark seen (meaningful for trap/hang)
	Violations []Violation
	Records    []Record
}

func (in *Instance) instantiate() error {
	p := in.p
	if in.mod != nil {
		in.mod.Close(p.ctx)
		in.mod = nil
	}
	in.mon = NewMonitor(in.Poison)
	in.mon.RecordKinds, in.mon.OpKind, in.mon.MaxEvents, in.mon.AbortOnViolation = p.RecordKinds, p.OpKind, p.MaxEvents, p.Abort
	p.seq++
	in.out.Reset()
	p.cur = in
	mod, err := p.rt.InstantiateModule(p.ctx, p.cm, p.conf.WithName(fmt.Sprintf("%s#%d", p.Name, p.seq)))
	if err != nil {
		return err
	}
	in.mod = mod
	if f := mod.ExportedFunction("verif_heap_base"); f != nil {
		if r, err := f.Call(p.ctx); err == nil && len(r) == 1 {
			in.mon.mu.Lock()
			in.mon.HeapBase = uint32(r[0])
			in.mon.mu.Unlock()
		}
	}
	return nil
}

func (in *Instance) output() string {
	in.omu.Lock()
	defer in.omu.Unlock()
	return in.out.String()
}

// Call runs one exported function; a fresh module instance (and monitor) is made after any trap.
func (in *Instance) Call(name string) (res CallResult) {
	p := in.p
	p.cur = in
	if in.mod == nil {
		if err := in.instantiate(); err != nil {
			res.Status, res.Err = "trap", "instantiate: "+firstLine(err.Error())
			res.Out = in.output()
			if in.mon != nil {
				res.Violations = in.mon.Violations
			}
			in.mod = nil
			return
		}
	}
	in.omu.Lock()
	in.out.Reset()
	in.omu.Unlock()
	in.mon.BeginCase()
	fn := in.mod.ExportedFunction(name)
	if fn == nil {
		return CallResult{Status: "trap", Err: "no exported function " + name}
	}
	var err error
	func() {
		defer func() {
			if e := recover(); e != nil {
				err = fmt.Errorf("host panic: %v", e)
			}
		}()
		_, err = fn.Call(p.ctx)
	}()
	res.Out = in.output()
	res.Violations, res.Records, res.Mark = in.mon.Violations, in.mon.Records, in.mon.curMark
	if err != nil {
		res.Status = "trap"
		res.Err = firstLine(err.Error())
		if ee, ok := err.(*sys.ExitError); ok {
			res.Err = fmt.Sprintf("exit(%d)", ee.ExitCode())
		}
		in.mod.Close(p.ctx)
		in.mod = nil
		return
	}
	res.Status = "ok"
	if len(res.Violations) > 0 {
		// the heap of this instance can no longer be trusted: the next case gets a fresh one, so
		// a violation is always attributable to the case that shows it
		in.mod.Close(p.ctx)
		in.mod = nil
	}
	return
}

// cpuSeconds: user+system CPU time consumed by this process so far.
func cpuSeconds() float64 {
	var ru syscall.Rusage
	if syscall.Getrusage(syscall.RUSAGE_SELF, &ru) != nil {
		return 0
	}
	return float64(ru.Utime.Sec+ru.Stime.Sec) + float64(ru.Utime.Usec+ru.Stime.Usec)/1e6
}

// CallWatched is Call with a watchdog. The budget is CPU time of this process, not wall-clock
// time (a hung case burns CPU; a starved machine does not make a healthy case look hung): when
// the call has not returned after the process consumed cpuBudget CPU-seconds since the call
// started (or after the wall-clock cap, a last resort), a snapshot of what the monitor saw so
// far is returned with Status "hang". Instantiation is not part of the watched region. The
// goroutine stuck in the engine cannot be stopped: the caller must not use the Program any more
// and the process should exit soon (the worker pool retires it).
func (in *Instance) CallWatched(name string, cpuBudget float64, wallCap time.Duration) CallResult {
	if in.mod == nil {
		in.p.cur = in
		if err := in.instantiate(); err != nil {
			res := CallResult{Status: "trap", Err: "instantiate: " + firstLine(err.Error()), Out: in.output(), Mark: -1}
			if in.mon != nil {
				res.Violations = in.mon.Violations
			}
			in.mod = nil
			return res
		}
	}
	// No garbage collection while the call is watched: a goroutine spinning in engine-compiled
	// code (no host call) cannot be preempted, so a GC stop-the-world would freeze the whole
	// process including this watchdog. One case allocates next to nothing on the Go side.
	// (It stays off after a hang: the stuck goroutine is still there and the process is retired.)
	gcp := debug.SetGCPercent(-1)
	done := make(chan CallResult, 1)
	go func() { done <- in.Call(name) }()
	cpu0, t0 := cpuSeconds(), time.Now()
	tick := time.NewTicker(200 * time.Millisecond)
	defer tick.Stop()
	why := ""
	for why == "" {
		select {
		case r := <-done:
			debug.SetGCPercent(gcp)
			return r
		case <-tick.C:
			if c := cpuSeconds() - cpu0; c > cpuBudget {
				why = fmt.Sprintf("no return after %.0f CPU-seconds (%.0fs wall)", c, time.Since(t0).Seconds())
			} else if time.Since(t0) > wallCap {
				why = fmt.Sprintf("no return after %.0fs wall (%.1f CPU-seconds)", time.Since(t0).Seconds(), c)
			}
		}
	}
	res := CallResult{Status: "hang", Err: why, Mark: -1}
	if mo := in.mon; mo != nil {
		mo.mu.Lock()
		res.Violations = append([]Violation(nil), mo.Violations...)
		res.Records = append([]Record(nil), mo.Records...)
		res.Mark = mo.curMark
		res.Err += "; last events: " + strings.Join(mo.trace(), " ")
		mo.mu.Unlock()
	}
	res.Out = in.output()
	return res
}

func firstLine(s string) string {
	if i := strings.IndexByte(s, '\n'); i >= 0 {
		return s[:i]
	}
	return s
}
